//! Case kinds of group `safety` (C14, C15). `run` returns None for case kinds it does
//! not know. Owned by the `safety` group; other files need not change when kinds are added here.
//!
//! K2 (validators and renaming functions through the facade; a panic is caught by main.rs
//! and printed as PANIC):
//!   v_dom|v_svc|v_host <hex>            -> OK | ERR
//!   v_len <hex> <limit>                 -> OK | ERR
//!   v_inst <hex>                        -> OK 0|1
//!   v_nc|v_hc|v_esc|v_norm <hex>        -> OK <hex>
//!   v_sub <hex>                         -> OK <hex ty_domain> <hex sub_domain|~>
//!   v_lab <hex>                         -> OK <fit 0|1> <label hex,...|->
//!   v_new <hex ty> <hex name> <hex host>-> OK <ty> <sub|~> <fullname> <server> | ERR
//! K6/K7:
//!   simh <history json>                 -> the JSON result line of `sim::run_history`
//!   c14 <steps>                         -> command-queue / shutdown histories (see `c14`)
//!   stress_shutdown <threads> <calls> <seed> -> real client threads against a shutting-down daemon
#[allow(unused_imports)]
use crate::util::*;
#[allow(unused_imports)]
use mdns_sd::verif_hooks as vh;
use mdns_sd::{DaemonStatus, HostnameResolutionEvent, ServiceDaemon, ServiceEvent, ServiceInfo, UnregisterStatus};
use std::net::{IpAddr, Ipv4Addr};
use std::sync::atomic::{AtomicBool, AtomicU16, Ordering};
use std::sync::Arc;
use std::time::Duration;

fn okerr<T>(r: Result<T, String>) -> String {
    match r {
        Ok(_) => "OK".into(),
        Err(_) => "ERR".into(),
    }
}

pub fn run(t: &[&str]) -> Option<String> {
    let s1 = || t.get(1).and_then(|x| unhex_str(x));
    Some(match t[0] {
        "v_dom" => match s1() {
            Some(s) => okerr(vh::check_domain_suffix(&s)),
            None => "SKIP".into(),
        },
        "v_svc" => match s1() {
            Some(s) => okerr(vh::check_service_name(&s)),
            None => "SKIP".into(),
        },
        "v_host" => match s1() {
            Some(s) => okerr(vh::check_hostname(&s)),
            None => "SKIP".into(),
        },
        "v_len" => match (s1(), t.get(2).and_then(|x| x.parse::<u8>().ok())) {
            (Some(s), Some(l)) => okerr(vh::check_service_name_length(&s, l)),
            _ => "SKIP".into(),
        },
        "v_inst" => match s1() {
            Some(s) => format!("OK {}", if vh::valid_instance_name(&s) { 1 } else { 0 }),
            None => "SKIP".into(),
        },
        "v_nc" => match s1() {
            Some(s) => format!("OK {}", hex(vh::name_change(&s).as_bytes())),
            None => "SKIP".into(),
        },
        "v_hc" => match s1() {
            Some(s) => format!("OK {}", hex(vh::hostname_change(&s).as_bytes())),
            None => "SKIP".into(),
        },
        "v_esc" => match s1() {
            Some(s) => format!("OK {}", hex(vh::escape_instance_name(&s).as_bytes())),
            None => "SKIP".into(),
        },
        "v_norm" => match s1() {
            Some(s) => format!("OK {}", hex(vh::normalize_hostname(s).as_bytes())),
            None => "SKIP".into(),
        },
        "v_sub" => match s1() {
            Some(s) => {
                let (a, b) = vh::split_sub_domain(&s);
                format!("OK {} {}", hex(a.as_bytes()), b.map(|x| hex(x.as_bytes())).unwrap_or_else(|| "~".into()))
            }
            None => "SKIP".into(),
        },
        "v_lab" => match s1() {
            Some(s) => {
                // exactly what write_name / name_labels_fit do before splitting
                let n = s.strip_suffix('.').unwrap_or(&s);
                let labels = vh::parse_escaped_name(n);
                let fit = labels.iter().all(|l| l.len() < 64);
                let ls: Vec<String> = labels.iter().map(|l| hex(l.as_bytes())).collect();
                format!("OK {} {}", if fit { 1 } else { 0 }, if ls.is_empty() { "-".to_string() } else { ls.join(",") })
            }
            None => "SKIP".into(),
        },
        "v_new" => {
            let (Some(ty), Some(name), Some(host)) = (
                t.get(1).and_then(|x| unhex_str(x)),
                t.get(2).and_then(|x| unhex_str(x)),
                t.get(3).and_then(|x| unhex_str(x)),
            ) else {
                return Some("SKIP".into());
            };
            match ServiceInfo::new(&ty, &name, &host, "192.168.1.10", 80, None::<std::collections::HashMap<String, String>>) {
                Ok(i) => format!(
                    "OK {} {} {} {}",
                    hex(i.get_type().as_bytes()),
                    i.get_subtype().as_ref().map(|x| hex(x.as_bytes())).unwrap_or_else(|| "~".into()),
                    hex(i.get_fullname().as_bytes()),
                    hex(i.get_hostname().as_bytes())
                ),
                Err(_) => "ERR".into(),
            }
        }
        "simh" => simh(&t[1..].join(" ")),
        "c14" => c14(t.get(1).copied().unwrap_or("")),
        "stress_shutdown" => stress_shutdown(
            t.get(1).and_then(|x| x.parse().ok()).unwrap_or(4),
            t.get(2).and_then(|x| x.parse().ok()).unwrap_or(50),
            t.get(3).and_then(|x| x.parse().ok()).unwrap_or(1),
        ),
        "stress_cleanup" => stress_cleanup(
            t.get(1).and_then(|x| x.parse().ok()).unwrap_or(40),
            t.get(2).and_then(|x| x.parse().ok()).unwrap_or(4),
            t.get(3).and_then(|x| x.parse().ok()).unwrap_or(250),
            t.get(4).and_then(|x| x.parse().ok()).unwrap_or(1),
        ),
        _ => return None,
    })
}

/// `sim::run_history`, plus an oracle for the model: the lower-cased spelling (Rust's
/// str::to_lowercase, which the model does not contain) of every name that the argument checks
/// of browse / resolve_hostname / register look at, as `"lower": {"<hex name>": "<hex lower>"}`.
fn simh(history: &str) -> String {
    let out = crate::sim::run_history(history);
    let (Ok(h), Ok(mut r)) = (
        serde_json::from_str::<serde_json::Value>(history),
        serde_json::from_str::<serde_json::Value>(&out),
    ) else {
        return out;
    };
    let mut table = serde_json::Map::new();
    let mut add = |n: &str| {
        table.insert(hex(n.as_bytes()), serde_json::Value::String(hex(n.to_lowercase().as_bytes())));
    };
    for st in h["steps"].as_array().cloned().unwrap_or_default() {
        for c in st.get("calls").and_then(|x| x.as_array()).cloned().unwrap_or_default() {
            match c["op"].as_str().unwrap_or("") {
                "browse" | "browse_cache" => add(c["ty"].as_str().unwrap_or("")),
                "resolve_hostname" => add(c["host"].as_str().unwrap_or("")),
                "register" => {
                    let s = &c["svc"];
                    if let Ok(info) = ServiceInfo::new(
                        s["ty"].as_str().unwrap_or(""),
                        s["name"].as_str().unwrap_or(""),
                        s["host"].as_str().unwrap_or(""),
                        "",
                        1,
                        None::<std::collections::HashMap<String, String>>,
                    ) {
                        add(info.get_fullname());
                        add(info.get_hostname());
                        if let Some(sub) = info.get_subtype() {
                            add(sub);
                        }
                    }
                }
                _ => {}
            }
        }
    }
    if let Some(o) = r.as_object_mut() {
        o.insert("lower".into(), serde_json::Value::Object(table));
    }
    r.to_string()
}

// =========================================================================================
// C14: command queue and shutdown, on the real daemon thread in the simulated world.
//
// Case:  c14 <step>/<step>/...      step = <dt>:<call>,<call>,...   (calls may be empty)
// Before each step the virtual clock advances by dt ms; the calls are issued through the
// public API (daemon held at the gate), then the daemon runs ONE loop iteration (if it is
// still alive), then every reply/event channel is drained.
// Calls (arguments hex-encoded UTF-8):
//   B<ty> browse, C<ty> browse_cache, b<ty> stop_browse, H<host> resolve_hostname,
//   h<host> stop_resolve_hostname, R<ty>:<name>:<host> register (ip 192.168.1.10, port 80),
//   U<fullname> unregister, M monitor, S status, G get_metrics, X shutdown,
//   L<n> set_service_name_len_max, I<n> set_ip_check_interval, V<name> verify (timeout 1 s)
// and, in the same list, network input delivered before the iteration (not a call, owns no
// channel):  P<ty>*<n>  = one response datagram with n PTR answers announcing n new instances
// of type <ty>.
// The k-th call of the history (0-based over all steps) owns channel k.
// Result: one record per step, joined by " / ":
//   r=<result>,..|ev=<ch>:<ev>.<ev>;..|gb=<hex name>,..|an=<hex name>,..|x=<0|1 daemon thread ended in this step>[|dead=panicked|stuck]
// an: own services announced in the step (SRV owner names with a real TTL in responses sent);
//     not predicted by the model but handed to it as environment input (probing and the
//     registry are not part of the C14 model)
// results: Ok | Msg | Again | DaemonShutdown | Other | PANIC
// events (C14-relevant projection): Started (first SearchStarted of a channel only), Stopped,
//   Found (ServiceFound), Timeout, Running, Shutdown, UnregOK, UnregNotFound, Metrics, closed
// gb (only in the step in which the daemon thread ended): owner names (lower-cased) of SRV records with TTL 0 (read back as 1 by the crate's decoder) sent in the step, sorted.
// =========================================================================================

enum Ch {
    Svc(flume::Receiver<ServiceEvent>, bool),
    Host(flume::Receiver<HostnameResolutionEvent>, bool),
    Mon(flume::Receiver<mdns_sd::DaemonEvent>),
    Unreg(flume::Receiver<UnregisterStatus>),
    Status(flume::Receiver<DaemonStatus>),
    Metrics(flume::Receiver<mdns_sd::Metrics>),
}

fn err_kind(e: &mdns_sd::Error) -> &'static str {
    match e {
        mdns_sd::Error::Again => "Again",
        mdns_sd::Error::DaemonShutdown => "DaemonShutdown",
        mdns_sd::Error::Msg(_) => "Msg",
        _ => "Other",
    }
}

static NEXT_PORT: AtomicU16 = AtomicU16::new(0);

fn fresh_port() -> u16 {
    // distinct per history inside one process; processes are distinguished by pid
    let k = NEXT_PORT.fetch_add(1, Ordering::SeqCst);
    10000 + ((std::process::id() as u16).wrapping_mul(97).wrapping_add(k)) % 50000
}

fn sim_iface() -> if_addrs::Interface {
    if_addrs::Interface {
        name: "eth0".into(),
        addr: if_addrs::IfAddr::V4(if_addrs::Ifv4Addr {
            ip: Ipv4Addr::new(192, 168, 1, 10),
            netmask: Ipv4Addr::new(255, 255, 255, 0),
            prefixlen: 24,
            broadcast: None,
        }),
        index: Some(2),
        oper_status: if_addrs::IfOperStatus::Up,
        is_p2p: false,
    }
}

fn do_call(d: &ServiceDaemon, c: &str, chans: &mut Vec<(usize, Ch, bool)>, idx: usize) -> String {
    let (op, arg) = c.split_at(1);
    let s = |x: &str| unhex_str(x).unwrap_or_default();
    macro_rules! reg {
        ($r:expr, $mk:expr) => {
            match $r {
                Ok(rx) => {
                    chans.push((idx, ($mk)(rx), false));
                    "Ok".to_string()
                }
                Err(e) => err_kind(&e).to_string(),
            }
        };
    }
    macro_rules! unit {
        ($r:expr) => {
            match $r {
                Ok(_) => "Ok".to_string(),
                Err(e) => err_kind(&e).to_string(),
            }
        };
    }
    let r = std::panic::catch_unwind(std::panic::AssertUnwindSafe(|| match op {
        "B" => reg!(d.browse(&s(arg)), |rx| Ch::Svc(rx, false)),
        "C" => reg!(d.browse_cache(&s(arg)), |rx| Ch::Svc(rx, false)),
        "b" => unit!(d.stop_browse(&s(arg))),
        "H" => reg!(d.resolve_hostname(&s(arg), None), |rx| Ch::Host(rx, false)),
        "h" => unit!(d.stop_resolve_hostname(&s(arg))),
        "R" => {
            let p: Vec<&str> = arg.split(':').collect();
            if p.len() != 3 {
                return "BadCall".to_string();
            }
            match ServiceInfo::new(&s(p[0]), &s(p[1]), &s(p[2]), "192.168.1.10", 80, None::<std::collections::HashMap<String, String>>) {
                Ok(info) => unit!(d.register(info)),
                Err(e) => err_kind(&e).to_string(),
            }
        }
        "U" => reg!(d.unregister(&s(arg)), Ch::Unreg),
        "M" => reg!(d.monitor(), Ch::Mon),
        "S" => reg!(d.status(), Ch::Status),
        "G" => reg!(d.get_metrics(), Ch::Metrics),
        "X" => reg!(d.shutdown(), Ch::Status),
        "L" => unit!(d.set_service_name_len_max(arg.parse::<u8>().unwrap_or(15))),
        "I" => unit!(d.set_ip_check_interval(arg.parse::<u32>().unwrap_or(5))),
        "V" => unit!(d.verify(s(arg), Duration::from_millis(1000))),
        _ => "BadCall".to_string(),
    }));
    r.unwrap_or_else(|_| "PANIC".to_string())
}

/// `snapshot`: read only what is in each channel right now (used when the daemon thread is
/// blocked in a `send`: reading frees a slot, and what the blocked sender then adds is not part
/// of the observation).
fn drain(chans: &mut Vec<(usize, Ch, bool)>, snapshot: bool) -> Vec<String> {
    let mut out = Vec::new();
    for (idx, ch, closed) in chans.iter_mut() {
        let mut evs: Vec<&'static str> = Vec::new();
        macro_rules! pump {
            ($rx:expr, $f:expr) => {{
                let mut left = if snapshot { $rx.len() } else { usize::MAX };
                while left > 0 {
                    left -= 1;
                    match $rx.try_recv() {
                        Ok(e) => {
                            if let Some(x) = $f(e) {
                                evs.push(x)
                            }
                        }
                        Err(flume::TryRecvError::Empty) => break,
                        Err(flume::TryRecvError::Disconnected) => {
                            if !*closed {
                                *closed = true;
                                evs.push("closed");
                            }
                            break;
                        }
                    }
                }
            }};
        }
        match ch {
            Ch::Svc(rx, started) => pump!(rx, |e: ServiceEvent| match e {
                ServiceEvent::SearchStarted(_) => {
                    if *started {
                        None
                    } else {
                        *started = true;
                        Some("Started")
                    }
                }
                ServiceEvent::SearchStopped(_) => Some("Stopped"),
                ServiceEvent::ServiceFound(_, _) => Some("Found"),
                _ => None,
            }),
            Ch::Host(rx, started) => pump!(rx, |e: HostnameResolutionEvent| match e {
                HostnameResolutionEvent::SearchStarted(_) => {
                    if *started {
                        None
                    } else {
                        *started = true;
                        Some("Started")
                    }
                }
                HostnameResolutionEvent::SearchStopped(_) => Some("Stopped"),
                HostnameResolutionEvent::SearchTimeout(_) => Some("Timeout"),
                _ => None,
            }),
            Ch::Mon(rx) => pump!(rx, |_e: mdns_sd::DaemonEvent| None),
            Ch::Unreg(rx) => pump!(rx, |e: UnregisterStatus| Some(match e {
                UnregisterStatus::OK => "UnregOK",
                UnregisterStatus::NotFound => "UnregNotFound",
            })),
            Ch::Status(rx) => pump!(rx, |e: DaemonStatus| Some(match e {
                DaemonStatus::Running => "Running",
                DaemonStatus::Shutdown => "Shutdown",
                _ => "OtherStatus",
            })),
            Ch::Metrics(rx) => pump!(rx, |_e: mdns_sd::Metrics| Some("Metrics")),
        }
        if !evs.is_empty() {
            out.push(format!("{}:{}", idx, evs.join(".")));
        }
    }
    out
}

/// (goodbyes, announcements) of one step: owner names (lower-cased, hex) of the SRV records
/// in the responses sent, with TTL 0 (read back as 1) resp. with a real TTL.
fn goodbyes_and_announcements(sim: &vh::SimDaemon) -> (Vec<String>, Vec<String>) {
    let mut gb = Vec::new();
    let mut an = Vec::new();
    for e in sim.take_egress() {
        if let Ok(m) = vh::decode(e.data.clone(), 2) {
            if m.flags & 0x8000 == 0 {
                continue;
            }
            for a in m.answers.iter() {
                if a.ty == 33 {
                    let n = hex(a.name.to_lowercase().as_bytes());
                    if a.ttl <= 1 {
                        gb.push(n);
                    } else if !an.contains(&n) {
                        an.push(n);
                    }
                }
            }
        }
    }
    gb.sort();
    an.sort();
    (gb, an)
}

const WALL_MS: u64 = 20000;
/// wall-clock wait for one iteration of a c14 history before the daemon thread counts as stuck
const C14_WALL_MS: u64 = 5000;

/// A response with `n` PTR answers `<ty> PTR p<tag>x<j>.<ty>` (uncompressed).
fn ptr_announcement(ty: &str, n: usize, tag: usize) -> Vec<u8> {
    fn name(out: &mut Vec<u8>, first: Option<&str>, ty: &str) {
        if let Some(f) = first {
            out.push(f.len() as u8);
            out.extend(f.as_bytes());
        }
        for l in ty.split('.').filter(|l| !l.is_empty()) {
            out.push(l.len().min(63) as u8);
            out.extend(&l.as_bytes()[..l.len().min(63)]);
        }
        out.push(0);
    }
    let mut p = vec![0, 0, 0x84, 0, 0, 0, (n >> 8) as u8, n as u8, 0, 0, 0, 0];
    for j in 0..n {
        name(&mut p, None, ty);
        p.extend([0, 12, 0, 1, 0, 0, 0x11, 0x94]); // PTR IN ttl 4500
        let mut rd = Vec::new();
        name(&mut rd, Some(&format!("p{tag}x{j}")), ty);
        p.extend([(rd.len() >> 8) as u8, rd.len() as u8]);
        p.extend(rd);
    }
    p
}

fn c14(spec: &str) -> String {
    let port = fresh_port();
    vh::set_virtual_now(Some(1_000_000));
    let sim = vh::sim_register(port, vec![sim_iface()], 1);
    let daemon = match ServiceDaemon::new_with_port(port) {
        Ok(d) => d,
        Err(_) => return "NODAEMON".into(),
    };
    let mut alive = sim.wait_at_gate(WALL_MS).map(|r| !r.exited).unwrap_or(false);
    let mut chans: Vec<(usize, Ch, bool)> = Vec::new();
    let mut idx = 0usize;
    let mut recs: Vec<String> = Vec::new();
    let mut now = 1_000_000u64;
    let mut was_stuck = false;
    for st in spec.split('/') {
        let (dt, calls) = st.split_once(':').unwrap_or((st, ""));
        now += dt.parse::<u64>().unwrap_or(0);
        vh::set_virtual_now(Some(now));
        let mut rs = Vec::new();
        for c in calls.split(',').filter(|c| !c.is_empty()) {
            if let Some(arg) = c.strip_prefix('P') {
                let (ty, n) = arg.split_once('*').unwrap_or((arg, "1"));
                let data = ptr_announcement(&unhex_str(ty).unwrap_or_default(), n.parse().unwrap_or(1), recs.len());
                sim.inject(vh::Ingress { is_ipv4: true, if_index: 2, src: "192.168.1.99:5353".parse().unwrap(), data });
                continue;
            }
            rs.push(do_call(&daemon, c, &mut chans, idx));
            idx += 1;
        }
        let mut exited = false;
        let mut dead = "";
        if alive {
            sim.release();
            match sim.wait_at_gate(C14_WALL_MS) {
                None => {
                    alive = false;
                    dead = "|dead=stuck";
                }
                Some(r) => {
                    if r.exited {
                        alive = false;
                        exited = true;
                        if r.panicked {
                            dead = "|dead=panicked";
                        }
                    }
                }
            }
        }
        // goodbyes are part of the observation only in the step in which the daemon ends
        let (gb_all, an) = goodbyes_and_announcements(&sim);
        let gb = if exited { gb_all } else { Vec::new() };
        // a client blocked behind a stuck daemon reads nothing any more
        // (reading a listener would free the daemon thread blocked in `send`)
        if dead == "|dead=stuck" {
            was_stuck = true;
        }
        let ev = if was_stuck { Vec::new() } else { drain(&mut chans, false) };
        recs.push(format!(
            "r={}|ev={}|gb={}|an={}|x={}{}",
            if rs.is_empty() { "-".to_string() } else { rs.join(",") },
            if ev.is_empty() { "-".to_string() } else { ev.join(";") },
            if gb.is_empty() { "-".to_string() } else { gb.join(",") },
            if an.is_empty() { "-".to_string() } else { an.join(",") },
            if exited { 1 } else { 0 },
            dead
        ));
    }
    if alive {
        let _ = daemon.shutdown();
        sim.release();
        let _ = sim.wait_at_gate(WALL_MS);
    } else if was_stuck {
        // free the blocked thread: without receivers its sends fail instead of blocking
        drop(chans);
        let _ = daemon.shutdown();
        sim.release();
        sim.release();
        let _ = sim.wait_at_gate(2000);
    }
    vh::sim_unregister(port);
    recs.join(" / ")
}

// =========================================================================================
// Real-thread stress (search support for C14, outside the model): a daemon in the simulated
// world is released continuously by a helper thread while client threads issue calls on
// clones of the handle and one of them shuts the daemon down.  Every call must return and
// every reply receiver must yield or close within a wall-clock timeout.
// Result: OK calls=<n> after_shutdown_ok=<n>  |  FAIL <what>
// =========================================================================================
fn stress_shutdown(n_threads: usize, n_calls: usize, seed: u64) -> String {
    let port = fresh_port();
    vh::set_virtual_now(Some(1_000_000));
    let sim = vh::sim_register(port, vec![sim_iface()], 1);
    let daemon = match ServiceDaemon::new_with_port(port) {
        Ok(d) => d,
        Err(_) => return "NODAEMON".into(),
    };
    let _ = sim.wait_at_gate(WALL_MS);
    let stop = Arc::new(AtomicBool::new(false));
    let pump = {
        let sim = sim.clone();
        let stop = stop.clone();
        std::thread::spawn(move || {
            while !stop.load(Ordering::SeqCst) {
                sim.release();
                match sim.wait_at_gate(2000) {
                    Some(r) if r.exited => break,
                    _ => {}
                }
            }
        })
    };
    let saw_shutdown = Arc::new(AtomicBool::new(false));
    let mut hs = Vec::new();
    for k in 0..n_threads {
        let d = daemon.clone();
        let saw = saw_shutdown.clone();
        hs.push(std::thread::spawn(move || -> Result<(usize, usize), String> {
            let mut rng = seed.wrapping_mul(6364136223846793005).wrapping_add(k as u64 * 1442695040888963407 + 1);
            let mut next = || {
                rng ^= rng << 13;
                rng ^= rng >> 7;
                rng ^= rng << 17;
                rng
            };
            let mut n = 0usize;
            let mut after_ok = 0usize;
            let shut_at = if k == 0 { (next() as usize) % n_calls.max(1) } else { usize::MAX };
            let wait = Duration::from_millis(5000);
            for i in 0..n_calls {
                let known_dead = saw.load(Ordering::SeqCst);
                let which = if i == shut_at { 99 } else { next() % 7 };
                // returns: Some(true) call Ok and resolved, Some(false) call Err, None = pending forever
                macro_rules! oneshot {
                    ($r:expr) => {
                        match $r {
                            Err(_) => Some(false),
                            Ok(rx) => match rx.recv_timeout(wait) {
                                Ok(_) => Some(true),
                                Err(flume::RecvTimeoutError::Disconnected) => Some(true),
                                Err(flume::RecvTimeoutError::Timeout) => None,
                            },
                        }
                    };
                }
                let r: Option<bool> = match which {
                    0 => oneshot!(d.browse("_x._tcp.local.")),
                    1 => oneshot!(d.resolve_hostname("h.local.", None)),
                    2 => oneshot!(d.get_metrics()),
                    3 => oneshot!(d.unregister("i._x._tcp.local.")),
                    4 => match d.status() {
                        Err(_) => Some(false),
                        Ok(rx) => match rx.recv_timeout(wait) {
                            Ok(DaemonStatus::Shutdown) => {
                                saw.store(true, Ordering::SeqCst);
                                Some(false)
                            }
                            Ok(_) => Some(true),
                            Err(flume::RecvTimeoutError::Disconnected) => Some(true),
                            Err(flume::RecvTimeoutError::Timeout) => None,
                        },
                    },
                    5 => match ServiceInfo::new("_x._tcp.local.", "i", "h.local.", IpAddr::V4(Ipv4Addr::new(192, 168, 1, 10)), 80, None::<std::collections::HashMap<String, String>>) {
                        Ok(info) => Some(d.register(info).is_ok()),
                        Err(_) => Some(false),
                    },
                    6 => Some(d.stop_browse("_x._tcp.local.").is_ok()),
                    _ => match d.shutdown() {
                        Err(_) => Some(false),
                        Ok(rx) => match rx.recv_timeout(wait) {
                            Ok(DaemonStatus::Shutdown) => {
                                saw.store(true, Ordering::SeqCst);
                                Some(false)
                            }
                            Ok(_) => Some(true),
                            Err(flume::RecvTimeoutError::Disconnected) => Some(true),
                            Err(flume::RecvTimeoutError::Timeout) => None,
                        },
                    },
                };
                n += 1;
                match r {
                    None => return Err(format!("pending-forever thread={k} call={i} kind={which}")),
                    Some(true) if known_dead && which != 4 => after_ok += 1,
                    _ => {}
                }
            }
            Ok((n, after_ok))
        }));
    }
    let mut total = 0;
    let mut after = 0;
    let mut fail: Option<String> = None;
    for h in hs {
        match h.join() {
            Ok(Ok((n, a))) => {
                total += n;
                after += a;
            }
            Ok(Err(e)) => fail = Some(e),
            Err(_) => fail = Some("client-thread-panicked".into()),
        }
    }
    stop.store(true, Ordering::SeqCst);
    if !sim.wait_at_gate(1).map(|r| r.exited).unwrap_or(false) {
        let _ = daemon.shutdown();
        sim.release();
    }
    let _ = pump.join();
    vh::sim_unregister(port);
    match fail {
        Some(e) => format!("FAIL {e}"),
        None if after > 0 => format!("FAIL call-succeeded-after-observed-shutdown n={after}"),
        None => format!("OK calls={total}"),
    }
}

// =========================================================================================
// Real-thread stress with a LONG clean-up (search support for C14, outside the model):
// `n_services` services are registered and announced, then `n_threads` client threads call
// get_metrics() / unregister(<unknown>) every `pause_us` microseconds on clones of the handle
// and keep every reply receiver, while the main thread shuts the daemon down.  When the daemon
// has ended, a reply receiver that has neither a value nor is closed belongs to a call that
// was accepted (Ok) and then left in the channel for ever ("stranded").
// Result: OK calls=<accepted> stranded=<k>   |  FAIL <what>
// =========================================================================================
fn stress_cleanup(n_services: usize, n_threads: usize, pause_us: u64, seed: u64) -> String {
    enum Rx {
        M(flume::Receiver<mdns_sd::Metrics>),
        U(flume::Receiver<UnregisterStatus>),
    }
    let port = fresh_port();
    vh::set_virtual_now(Some(1_000_000));
    let sim = vh::sim_register(port, vec![sim_iface()], seed);
    let daemon = match ServiceDaemon::new_with_port(port) {
        Ok(d) => d,
        Err(_) => return "NODAEMON".into(),
    };
    let _ = sim.wait_at_gate(WALL_MS);
    // register in batches (the command queue holds 100), then let the probes finish and the
    // announcements go out in virtual time
    for k in 0..n_services {
        let info = match ServiceInfo::new(
            "_x._tcp.local.",
            &format!("s{k}"),
            "h.local.",
            IpAddr::V4(Ipv4Addr::new(192, 168, 1, 10)),
            80,
            None::<std::collections::HashMap<String, String>>,
        ) {
            Ok(i) => i,
            Err(_) => return "FAIL service-info".into(),
        };
        if daemon.register(info).is_err() {
            return "FAIL register".into();
        }
        if k % 50 == 49 {
            sim.release();
            let _ = sim.wait_at_gate(WALL_MS);
        }
    }
    let mut announced = 0usize;
    for step in 0..8u64 {
        vh::set_virtual_now(Some(1_000_000 + step * 300));
        sim.release();
        if sim.wait_at_gate(WALL_MS).is_none() {
            return "FAIL setup-stuck".into();
        }
        let (_, an) = goodbyes_and_announcements(&sim);
        announced += an.len();
    }
    if announced < n_services {
        return format!("FAIL setup announced={announced}");
    }
    let stop = Arc::new(AtomicBool::new(false));
    let pump = {
        let sim = sim.clone();
        let stop = stop.clone();
        std::thread::spawn(move || {
            while !stop.load(Ordering::SeqCst) {
                sim.release();
                match sim.wait_at_gate(2000) {
                    Some(r) if r.exited => break,
                    _ => {}
                }
            }
        })
    };
    let mut hs = Vec::new();
    for k in 0..n_threads {
        let d = daemon.clone();
        hs.push(std::thread::spawn(move || -> Vec<Rx> {
            let mut kept = Vec::new();
            let pause = Duration::from_micros(pause_us + (k as u64 * 37) % 50);
            for i in 0..4000usize {
                let r = if (i + k) % 2 == 0 {
                    d.get_metrics().map(Rx::M)
                } else {
                    d.unregister("nobody._x._tcp.local.").map(Rx::U)
                };
                match r {
                    Ok(rx) => kept.push(rx),
                    Err(mdns_sd::Error::DaemonShutdown) => break,
                    Err(_) => {}
                }
                std::thread::sleep(pause);
            }
            kept
        }));
    }
    std::thread::sleep(Duration::from_millis(10 + seed % 10));
    let mut shut = daemon.shutdown();
    let mut tries = 0;
    while matches!(shut, Err(mdns_sd::Error::Again)) && tries < 10000 {
        std::thread::sleep(Duration::from_micros(100));
        shut = daemon.shutdown();
        tries += 1;
    }
    let shut_ok = match shut {
        Ok(rx) => matches!(rx.recv_timeout(Duration::from_millis(10000)), Ok(DaemonStatus::Shutdown)),
        Err(_) => false,
    };
    let mut all: Vec<Rx> = Vec::new();
    for h in hs {
        match h.join() {
            Ok(v) => all.extend(v),
            Err(_) => return "FAIL client-thread-panicked".into(),
        }
    }
    stop.store(true, Ordering::SeqCst);
    let _ = pump.join();
    if !shut_ok {
        vh::sim_unregister(port);
        return "FAIL shutdown-not-confirmed".into();
    }
    // the daemon thread has ended: give its destructors a moment, then look at every receiver
    std::thread::sleep(Duration::from_millis(30));
    let mut stranded = 0usize;
    for rx in all.iter() {
        let pending = match rx {
            Rx::M(r) => matches!(r.try_recv(), Err(flume::TryRecvError::Empty)),
            Rx::U(r) => matches!(r.try_recv(), Err(flume::TryRecvError::Empty)),
        };
        if pending {
            stranded += 1;
        }
    }
    vh::sim_unregister(port);
    format!("OK calls={} stranded={}", all.len(), stranded)
}
