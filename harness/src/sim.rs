//! K6/K7: drives real `ServiceDaemon`s (real daemon threads) in the simulated world of the
//! `verif-hooks` feature, one loop iteration at a time on a virtual clock, and prints the
//! observable trace as JSON lines.
//!
//! Input: one history (JSON object) per line on stdin.  Output: one JSON object per line:
//! `{"id":..,"trace":[iteration records..],"end":{..}}`.
use mdns_sd::verif_hooks as vh;
use mdns_sd::{
    DaemonEvent, DaemonStatus, HostnameResolutionEvent, IfKind, ScopedIp, ServiceDaemon, ServiceEvent, ServiceInfo,
    UnregisterStatus,
};
use serde_json::{json, Value};
use std::io::{BufRead, Write};
use std::net::{IpAddr, Ipv4Addr, Ipv6Addr, SocketAddr};
use std::sync::Arc;
use std::time::Duration;

use crate::util::{hex, unhex};

enum Chan {
    Svc(flume::Receiver<ServiceEvent>),
    Host(flume::Receiver<HostnameResolutionEvent>),
    Mon(flume::Receiver<DaemonEvent>),
    Unreg(flume::Receiver<UnregisterStatus>),
    Status(flume::Receiver<DaemonStatus>),
    Metrics(flume::Receiver<mdns_sd::Metrics>),
}

struct D {
    port: u16,
    sim: Arc<vh::SimDaemon>,
    daemon: ServiceDaemon,
    chans: Vec<(String, Chan, bool)>, // name, receiver, closed-reported
    ifaces: Vec<if_addrs::Interface>,
    dead: bool,
}

fn parse_iface(v: &Value) -> if_addrs::Interface {
    let name = v["name"].as_str().unwrap().to_string();
    let index = v["index"].as_u64().unwrap() as u32;
    let ip: IpAddr = v["addr"].as_str().unwrap().parse().unwrap();
    let addr = match ip {
        IpAddr::V4(ip) => {
            let mask: Ipv4Addr = v["mask"].as_str().unwrap_or("255.255.255.0").parse().unwrap();
            if_addrs::IfAddr::V4(if_addrs::Ifv4Addr {
                ip,
                netmask: mask,
                prefixlen: u32::from(mask).count_ones() as u8,
                broadcast: None,
            })
        }
        IpAddr::V6(ip) => {
            let mask: Ipv6Addr = v["mask"].as_str().unwrap_or("ffff:ffff:ffff:ffff::").parse().unwrap();
            if_addrs::IfAddr::V6(if_addrs::Ifv6Addr {
                ip,
                netmask: mask,
                prefixlen: u128::from(mask).count_ones() as u8,
                broadcast: None,
            })
        }
    };
    let up = v.get("up").and_then(|x| x.as_bool()).unwrap_or(true);
    if_addrs::Interface {
        name,
        addr,
        index: Some(index),
        oper_status: if up { if_addrs::IfOperStatus::Up } else { if_addrs::IfOperStatus::Down },
        is_p2p: false,
    }
}

fn fmt_scoped(a: &ScopedIp) -> String {
    match a {
        ScopedIp::V4(v4) => {
            let mut ids: Vec<u32> = v4.interface_ids().iter().map(|i| i.index).collect();
            ids.sort();
            format!("{}@{}", v4.addr(), ids.iter().map(|i| i.to_string()).collect::<Vec<_>>().join("+"))
        }
        ScopedIp::V6(v6) => format!("{}@{}", v6.addr(), v6.scope_id().index),
        _ => "?".to_string(),
    }
}

fn fmt_addrs(s: &std::collections::HashSet<ScopedIp>) -> Vec<String> {
    let mut v: Vec<String> = s.iter().map(fmt_scoped).collect();
    v.sort();
    v
}

fn first_word(s: &str) -> String {
    s.split(' ').next().unwrap_or("").to_string()
}

fn svc_event(e: ServiceEvent) -> Value {
    match e {
        ServiceEvent::SearchStarted(s) => json!({"e":"SearchStarted","ty":first_word(&s)}),
        ServiceEvent::ServiceFound(ty, name) => json!({"e":"ServiceFound","ty":ty,"name":name}),
        ServiceEvent::ServiceResolved(r) => {
            let props: Vec<Value> = r
                .txt_properties
                .iter()
                .map(|p| json!([hex(p.key().as_bytes()), p.val().map(hex)]))
                .collect();
            json!({"e":"ServiceResolved","ty":r.ty_domain,"sub":r.sub_ty_domain,"name":r.fullname,"host":r.host,
                   "port":r.port,"addrs":fmt_addrs(&r.addresses),"txt":props})
        }
        ServiceEvent::ServiceRemoved(ty, name) => json!({"e":"ServiceRemoved","ty":ty,"name":name}),
        ServiceEvent::SearchStopped(ty) => json!({"e":"SearchStopped","ty":ty}),
        _ => json!({"e":"Other"}),
    }
}

fn host_event(e: HostnameResolutionEvent) -> Value {
    match e {
        HostnameResolutionEvent::SearchStarted(s) => json!({"e":"SearchStarted","host":first_word(&s)}),
        HostnameResolutionEvent::AddressesFound(h, a) => json!({"e":"AddressesFound","host":h,"addrs":fmt_addrs(&a)}),
        HostnameResolutionEvent::AddressesRemoved(h, a) => json!({"e":"AddressesRemoved","host":h,"addrs":fmt_addrs(&a)}),
        HostnameResolutionEvent::SearchTimeout(h) => json!({"e":"SearchTimeout","host":h}),
        HostnameResolutionEvent::SearchStopped(h) => json!({"e":"SearchStopped","host":h}),
        _ => json!({"e":"Other"}),
    }
}

fn mon_event(e: DaemonEvent) -> Value {
    match e {
        DaemonEvent::Announce(n, s) => json!({"e":"Announce","name":n,"detail":s}),
        DaemonEvent::Error(err) => json!({"e":"Error","msg":err.to_string()}),
        DaemonEvent::IpAdd(ip) => json!({"e":"IpAdd","ip":ip.to_string()}),
        DaemonEvent::IpDel(ip) => json!({"e":"IpDel","ip":ip.to_string()}),
        DaemonEvent::NameChange(c) => json!({"e":"NameChange","original":c.original,"new_name":c.new_name,
                                             "rr_type":c.rr_type as u16,"intf":c.intf_name}),
        DaemonEvent::Respond(s) => json!({"e":"Respond","detail":s}),
        _ => json!({"e":"Other"}),
    }
}

fn err_kind(e: &mdns_sd::Error) -> &'static str {
    match e {
        mdns_sd::Error::Again => "Again",
        mdns_sd::Error::DaemonShutdown => "DaemonShutdown",
        mdns_sd::Error::Msg(_) => "Msg",
        mdns_sd::Error::ParseIpAddr(_) => "ParseIpAddr",
        _ => "Other",
    }
}

fn parse_ifkind(v: &Value) -> IfKind {
    let k = v["k"].as_str().unwrap();
    match k {
        "All" => IfKind::All,
        "IPv4" => IfKind::IPv4,
        "IPv6" => IfKind::IPv6,
        "Name" => IfKind::Name(v["v"].as_str().unwrap().to_string()),
        "Addr" => IfKind::Addr(v["v"].as_str().unwrap().parse().unwrap()),
        "LoopbackV4" => IfKind::LoopbackV4,
        "LoopbackV6" => IfKind::LoopbackV6,
        "IndexV4" => IfKind::IndexV4(v["v"].as_u64().unwrap() as u32),
        "IndexV6" => IfKind::IndexV6(v["v"].as_u64().unwrap() as u32),
        _ => IfKind::All,
    }
}

fn build_service(s: &Value) -> Result<ServiceInfo, mdns_sd::Error> {
    let props: Vec<vh::Prop> = s
        .get("props")
        .and_then(|p| p.as_array())
        .map(|a| {
            a.iter()
                .map(|kv| {
                    (
                        String::from_utf8(unhex(kv[0].as_str().unwrap())).unwrap(),
                        kv[1].as_str().map(unhex),
                    )
                })
                .collect()
        })
        .unwrap_or_default();
    let txt = vh::make_props(&props);
    let ips = s["ips"].as_str().unwrap_or("");
    let mut info = ServiceInfo::new(
        s["ty"].as_str().unwrap(),
        s["name"].as_str().unwrap(),
        s["host"].as_str().unwrap(),
        if ips == "auto" { "" } else { ips },
        s["port"].as_u64().unwrap_or(80) as u16,
        txt,
    )?;
    if ips == "auto" {
        info = info.enable_addr_auto();
    }
    if let Some(p) = s.get("probe").and_then(|x| x.as_bool()) {
        info.set_requires_probe(p);
    }
    Ok(info)
}

impl D {
    fn call(&mut self, c: &Value) -> Value {
        let op = c["op"].as_str().unwrap_or("");
        let ch = c.get("ch").and_then(|x| x.as_str()).unwrap_or("").to_string();
        macro_rules! reg {
            ($r:expr, $variant:path) => {
                match $r {
                    Ok(rx) => {
                        self.chans.push((ch.clone(), $variant(rx), false));
                        json!({"op":op,"ch":ch,"r":"Ok"})
                    }
                    Err(e) => json!({"op":op,"ch":ch,"r":"Err","kind":err_kind(&e)}),
                }
            };
        }
        macro_rules! unit {
            ($r:expr) => {
                match $r {
                    Ok(_) => json!({"op":op,"r":"Ok"}),
                    Err(e) => json!({"op":op,"r":"Err","kind":err_kind(&e)}),
                }
            };
        }
        let r = std::panic::catch_unwind(std::panic::AssertUnwindSafe(|| match op {
            "browse" => reg!(self.daemon.browse(c["ty"].as_str().unwrap()), Chan::Svc),
            "browse_cache" => reg!(self.daemon.browse_cache(c["ty"].as_str().unwrap()), Chan::Svc),
            "stop_browse" => unit!(self.daemon.stop_browse(c["ty"].as_str().unwrap())),
            "resolve_hostname" => reg!(
                self.daemon.resolve_hostname(c["host"].as_str().unwrap(), c.get("timeout").and_then(|t| t.as_u64())),
                Chan::Host
            ),
            "stop_resolve_hostname" => unit!(self.daemon.stop_resolve_hostname(c["host"].as_str().unwrap())),
            "register" => match build_service(&c["svc"]) {
                Ok(info) => unit!(self.daemon.register(info)),
                Err(e) => json!({"op":op,"r":"NewErr","kind":err_kind(&e)}),
            },
            "unregister" => reg!(self.daemon.unregister(c["name"].as_str().unwrap()), Chan::Unreg),
            "monitor" => reg!(self.daemon.monitor(), Chan::Mon),
            "shutdown" => reg!(self.daemon.shutdown(), Chan::Status),
            "status" => reg!(self.daemon.status(), Chan::Status),
            "get_metrics" => reg!(self.daemon.get_metrics(), Chan::Metrics),
            "set_ip_check_interval" => unit!(self.daemon.set_ip_check_interval(c["secs"].as_u64().unwrap() as u32)),
            "set_service_name_len_max" => unit!(self.daemon.set_service_name_len_max(c["len"].as_u64().unwrap() as u8)),
            "enable_interface" => {
                let kinds: Vec<IfKind> = c["kinds"].as_array().unwrap().iter().map(parse_ifkind).collect();
                unit!(self.daemon.enable_interface(kinds))
            }
            "disable_interface" => {
                let kinds: Vec<IfKind> = c["kinds"].as_array().unwrap().iter().map(parse_ifkind).collect();
                unit!(self.daemon.disable_interface(kinds))
            }
            "accept_unsolicited" => unit!(self.daemon.accept_unsolicited(c["on"].as_bool().unwrap())),
            "set_multicast_loop_v4" => unit!(self.daemon.set_multicast_loop_v4(c["on"].as_bool().unwrap())),
            "set_multicast_loop_v6" => unit!(self.daemon.set_multicast_loop_v6(c["on"].as_bool().unwrap())),
            "verify" => unit!(self
                .daemon
                .verify(c["name"].as_str().unwrap().to_string(), Duration::from_millis(c["timeout"].as_u64().unwrap()))),
            "drop_chan" => {
                self.chans.retain(|(n, _, _)| n != &ch);
                json!({"op":op,"ch":ch,"r":"Ok"})
            }
            _ => json!({"op":op,"r":"BadOp"}),
        }));
        match r {
            Ok(v) => v,
            Err(_) => json!({"op":op,"r":"PANIC"}),
        }
    }

    fn drain_chans(&mut self) -> Value {
        let mut out = serde_json::Map::new();
        for (name, ch, closed) in self.chans.iter_mut() {
            let mut evs: Vec<Value> = Vec::new();
            macro_rules! drain {
                ($rx:expr, $f:expr) => {
                    loop {
                        match $rx.try_recv() {
                            Ok(e) => evs.push($f(e)),
                            Err(flume::TryRecvError::Empty) => break,
                            Err(flume::TryRecvError::Disconnected) => {
                                if !*closed {
                                    *closed = true;
                                    evs.push(json!({"e":"<closed>"}));
                                }
                                break;
                            }
                        }
                    }
                };
            }
            match ch {
                Chan::Svc(rx) => drain!(rx, svc_event),
                Chan::Host(rx) => drain!(rx, host_event),
                Chan::Mon(rx) => drain!(rx, mon_event),
                Chan::Unreg(rx) => drain!(rx, |s: UnregisterStatus| json!({"e": format!("{:?}", s)})),
                Chan::Status(rx) => drain!(rx, |s: DaemonStatus| json!({"e": format!("{:?}", s)})),
                Chan::Metrics(rx) => drain!(rx, |m: mdns_sd::Metrics| {
                    let mut keys: Vec<(&String, &i64)> = m.iter().collect();
                    keys.sort();
                    let mm: serde_json::Map<String, Value> = keys.into_iter().map(|(k, v)| (k.clone(), json!(v))).collect();
                    json!({"e":"Metrics","m":mm})
                }),
            }
            if !evs.is_empty() {
                out.insert(name.clone(), Value::Array(evs));
            }
        }
        Value::Object(out)
    }

    fn egress(&self) -> Vec<Value> {
        self.sim
            .take_egress()
            .into_iter()
            .map(|e| {
                // map the chosen outgoing interface back to an index of the simulated table
                let ifidx = if e.is_ipv4 {
                    e.out_if_v4
                        .and_then(|a| self.ifaces.iter().find(|i| i.ip() == IpAddr::V4(a)).and_then(|i| i.index))
                } else {
                    e.out_if_v6
                };
                let (kind, dest) = match e.dest {
                    Some(SocketAddr::V4(a)) if *a.ip() == Ipv4Addr::new(224, 0, 0, 251) => ("mcast", a.to_string()),
                    Some(SocketAddr::V6(a)) if *a.ip() == Ipv6Addr::new(0xff02, 0, 0, 0, 0, 0, 0, 0xfb) => {
                        ("mcast", format!("[{}]:{}", a.ip(), a.port()))
                    }
                    Some(a) => ("ucast", a.to_string()),
                    None => ("none", String::new()),
                };
                json!({"t":e.now,"v4":e.is_ipv4,"if":ifidx,"kind":kind,"dest":dest,"hex":hex(&e.data)})
            })
            .collect()
    }
}

const WALL_MS: u64 = 20000;

pub fn run_history(line: &str) -> String {
    let h: Value = match serde_json::from_str(line) {
        Ok(v) => v,
        Err(e) => return json!({"error": format!("bad history: {e}")}).to_string(),
    };
    let id = h["id"].clone();
    let base_port = 20000 + (std::process::id() % 20000) as u16;
    let mut ds: Vec<D> = Vec::new();
    vh::set_virtual_now(Some(h.get("t0").and_then(|t| t.as_u64()).unwrap_or(1_000_000)));
    let mut trace: Vec<Value> = Vec::new();
    for (k, dv) in h["daemons"].as_array().unwrap().iter().enumerate() {
        let port = base_port + k as u16;
        let ifaces: Vec<if_addrs::Interface> = dv["ifaces"].as_array().unwrap().iter().map(parse_iface).collect();
        let sim = vh::sim_register(port, ifaces.clone(), dv.get("seed").and_then(|s| s.as_u64()).unwrap_or(1));
        let daemon = ServiceDaemon::new_with_port(port).expect("daemon");
        let mut d = D { port, sim, daemon, chans: Vec::new(), ifaces, dead: false };
        // the daemon runs its initialisation and arrives at the gate for the first time
        match d.sim.wait_at_gate(WALL_MS) {
            Some(r) => trace.push(json!({"d":k,"init":true,"wake":r.requested_wake,"now":r.arrived_at})),
            None => {
                d.dead = true;
                trace.push(json!({"d":k,"init":true,"stuck":true}));
            }
        }
        ds.push(d);
    }
    let link = h.get("link").and_then(|l| l.as_str()).unwrap_or("none").to_string();
    let mut pending_link: Vec<(usize, vh::Ingress)> = Vec::new();

    let steps = h["steps"].as_array().cloned().unwrap_or_default();
    let mut it = 0u64;
    let mut last_wake: Vec<Option<u64>> = ds.iter().map(|d| d.sim.wait_at_gate(1).and_then(|r| r.requested_wake)).collect();
    for st in steps.iter() {
        let di = st.get("d").and_then(|x| x.as_u64()).unwrap_or(0) as usize;
        // "run_until": T  -> timer-exact silent run of daemon di (and linked daemons) until T
        let mut targets: Vec<u64> = Vec::new();
        let mut until: Option<u64> = None;
        if let Some(t) = st.get("t").and_then(|t| t.as_u64()) {
            targets.push(t);
        } else if let Some(t) = st.get("run_until").and_then(|t| t.as_u64()) {
            until = Some(t);
        } else if st.get("t").and_then(|t| t.as_str()) == Some("wake") {
            if let Some(w) = last_wake[di] {
                targets.push(w.max(vh::virtual_now().unwrap_or(0)));
            } else {
                continue;
            }
        } else {
            targets.push(vh::virtual_now().unwrap_or(0));
        }
        let max_iters = st.get("max_iters").and_then(|x| x.as_u64()).unwrap_or(5000);
        let mut n_in_step = 0u64;
        loop {
            let t = if let Some(u) = until {
                // "dense": {"d": k, "every": ms}: daemon k is additionally woken every `ms`
                // (more often than it asked), for the exact-vs-dense comparison of C12
                if let Some(dn) = st.get("dense") {
                    let k = dn["d"].as_u64().unwrap_or(0) as usize;
                    let every = dn["every"].as_u64().unwrap_or(50).max(1);
                    if k < ds.len() && !ds[k].dead {
                        let nowv = vh::virtual_now().unwrap_or(0);
                        let next_grid = (nowv / every + 1) * every;
                        last_wake[k] = Some(last_wake[k].map(|w| w.min(next_grid)).unwrap_or(next_grid));
                    }
                }
                // next wake among all live daemons
                let w = ds.iter().enumerate().filter(|(_, d)| !d.dead).filter_map(|(i, _)| last_wake[i]).min();
                match w {
                    Some(w) if w <= u => w.max(vh::virtual_now().unwrap_or(0)),
                    _ => {
                        vh::set_virtual_now(Some(u.max(vh::virtual_now().unwrap_or(0))));
                        break;
                    }
                }
            } else {
                match targets.pop() {
                    Some(t) => t,
                    None => break,
                }
            };
            if n_in_step >= max_iters {
                trace.push(json!({"truncated":true,"at":t}));
                break;
            }
            n_in_step += 1;
            vh::set_virtual_now(Some(t.max(vh::virtual_now().unwrap_or(0))));
            let now = vh::virtual_now().unwrap();
            // which daemons run in this iteration: the addressed one for explicit steps; for
            // run_until every daemon whose wake time has come
            let run_set: Vec<usize> = if until.is_some() {
                (0..ds.len()).filter(|i| !ds[*i].dead && last_wake[*i].map(|w| w <= now).unwrap_or(false)).collect()
            } else {
                vec![di]
            };
            for &i in run_set.iter() {
                if ds[i].dead {
                    continue;
                }
                let mut rec = serde_json::Map::new();
                rec.insert("it".into(), json!(it));
                it += 1;
                rec.insert("d".into(), json!(i));
                rec.insert("now".into(), json!(now));
                if until.is_none() {
                    if let Some(tab) = st.get("ifaces").and_then(|x| x.as_array()) {
                        let ifaces: Vec<if_addrs::Interface> = tab.iter().map(parse_iface).collect();
                        ds[i].sim.set_interfaces(ifaces.clone());
                        ds[i].ifaces = ifaces;
                    }
                    if let Some(calls) = st.get("calls").and_then(|x| x.as_array()) {
                        let rs: Vec<Value> = calls.iter().map(|c| ds[i].call(c)).collect();
                        rec.insert("calls".into(), Value::Array(rs));
                    }
                    if let Some(dgs) = st.get("dgrams").and_then(|x| x.as_array()) {
                        for g in dgs {
                            ds[i].sim.inject(vh::Ingress {
                                is_ipv4: g["v4"].as_bool().unwrap_or(true),
                                if_index: g["if"].as_u64().unwrap_or(0) as u32,
                                src: g["src"].as_str().unwrap_or("192.168.1.99:5353").parse().unwrap(),
                                data: unhex(g["hex"].as_str().unwrap_or("-")),
                            });
                        }
                    }
                }
                // deliver what other daemons sent in earlier iterations (lossless link)
                let mut rest = Vec::new();
                for (to, g) in pending_link.drain(..) {
                    if to == i {
                        ds[i].sim.inject(g);
                    } else {
                        rest.push((to, g));
                    }
                }
                pending_link = rest;
                ds[i].sim.release();
                match ds[i].sim.wait_at_gate(WALL_MS) {
                    None => {
                        ds[i].dead = true;
                        rec.insert("stuck".into(), json!(true));
                    }
                    Some(r) => {
                        if r.exited {
                            ds[i].dead = true;
                            rec.insert("exited".into(), json!(true));
                            rec.insert("panicked".into(), json!(r.panicked));
                            last_wake[i] = None;
                        } else {
                            rec.insert("wake".into(), json!(r.requested_wake));
                            last_wake[i] = r.requested_wake;
                        }
                    }
                }
                let sent = ds[i].egress();
                if link == "lossless" {
                    for e in sent.iter() {
                        if e["kind"] != "mcast" {
                            continue;
                        }
                        let ifidx = e["if"].as_u64().unwrap_or(0) as u32;
                        let v4 = e["v4"].as_bool().unwrap();
                        // source address: first address of that family on the sending interface
                        let src_ip = ds[i].ifaces.iter().find(|x| x.index == Some(ifidx) && x.ip().is_ipv4() == v4).map(|x| x.ip());
                        let Some(src_ip) = src_ip else { continue };
                        for j in 0..ds.len() {
                            if j == i || ds[j].dead {
                                continue;
                            }
                            // same link = an interface with the same index on the other daemon
                            if ds[j].ifaces.iter().any(|x| x.index == Some(ifidx)) {
                                pending_link.push((j, vh::Ingress {
                                    is_ipv4: v4,
                                    if_index: ifidx,
                                    src: SocketAddr::new(src_ip, 5353),
                                    data: unhex(e["hex"].as_str().unwrap()),
                                }));
                                // the receiver must wake up for it
                                last_wake[j] = Some(last_wake[j].map(|w| w.min(now)).unwrap_or(now));
                            }
                        }
                    }
                }
                if !sent.is_empty() {
                    rec.insert("sent".into(), Value::Array(sent));
                }
                let jit = ds[i].sim.take_jitters();
                if !jit.is_empty() {
                    rec.insert("jitter".into(), json!(jit));
                }
                let ev = ds[i].drain_chans();
                if ev.as_object().map(|o| !o.is_empty()).unwrap_or(false) {
                    rec.insert("events".into(), ev);
                }
                trace.push(Value::Object(rec));
            }
            if until.is_none() {
                break;
            }
        }
    }
    // end of history: shut everything down cleanly so that no thread is left behind
    let mut end = serde_json::Map::new();
    for (i, d) in ds.iter_mut().enumerate() {
        if !d.dead {
            let _ = d.daemon.shutdown();
            d.sim.release();
            let r = d.sim.wait_at_gate(WALL_MS);
            end.insert(format!("d{i}_clean_exit"), json!(r.map(|r| r.exited && !r.panicked).unwrap_or(false)));
        }
        vh::sim_unregister(d.port);
    }
    json!({"id": id, "trace": trace, "end": end}).to_string()
}

pub fn main_sim() {
    let stdin = std::io::stdin();
    let stdout = std::io::stdout();
    let mut out = std::io::BufWriter::new(stdout.lock());
    for line in stdin.lock().lines() {
        let line = line.unwrap();
        if line.trim().is_empty() {
            continue;
        }
        let r = std::panic::catch_unwind(|| run_history(&line));
        match r {
            Ok(s) => writeln!(out, "{}", s).unwrap(),
            Err(_) => writeln!(out, "{}", json!({"error":"harness panic"})).unwrap(),
        }
        out.flush().unwrap();
    }
}
