//! Case kinds of group `browser` (facade-level, K1-K5). `run` returns None for case kinds it does
//! not know. Owned by the `browser` group; other files need not change when kinds are added here.
#[allow(unused_imports)]
use crate::util::*;
#[allow(unused_imports)]
use mdns_sd::verif_hooks as vh;

pub fn run(_t: &[&str]) -> Option<String> {
    None
}
