//! K1: wire codec.
use crate::util::*;
use mdns_sd::verif_hooks as vh;
use std::net::IpAddr;

pub fn fmt_rdata(r: &vh::PlainRData) -> String {
    match r {
        vh::PlainRData::Addr(IpAddr::V4(a)) => format!("A:{}", hex(&a.octets())),
        vh::PlainRData::Addr(IpAddr::V6(a)) => format!("A:{}", hex(&a.octets())),
        vh::PlainRData::Ptr(a) => format!("P:{}", hex(a.as_bytes())),
        vh::PlainRData::Srv { priority, weight, port, host } => {
            format!("S:{},{},{},{}", priority, weight, port, hex(host.as_bytes()))
        }
        vh::PlainRData::Txt(t) => format!("T:{}", hex(t)),
        vh::PlainRData::HInfo { cpu, os } => format!("H:{},{}", hex(cpu.as_bytes()), hex(os.as_bytes())),
        vh::PlainRData::NSec { next, bitmap } => format!("N:{},{}", hex(next.as_bytes()), hex(bitmap)),
        vh::PlainRData::Other => "O:".to_string(),
    }
}

pub fn fmt_rr(r: &vh::PlainRecord) -> String {
    format!(
        "{} {} {} {} {} {}",
        hex(r.name.as_bytes()),
        r.ty,
        r.class,
        r.flush as u8,
        r.ttl,
        fmt_rdata(&r.rdata)
    )
}

fn fmt_rrs(v: &[vh::PlainRecord]) -> String {
    v.iter().map(fmt_rr).collect::<Vec<_>>().join(" ; ")
}

pub fn fmt_msg(m: &vh::PlainMsg) -> String {
    let qs = m
        .questions
        .iter()
        .map(|q| format!("{} {} {} {}", hex(q.name.as_bytes()), q.ty, q.class, q.flush as u8))
        .collect::<Vec<_>>()
        .join(" ; ");
    format!(
        "{} {} {} {} {} {} | {} | {} | {} | {}",
        m.id,
        m.flags,
        m.num_questions,
        m.num_answers,
        m.num_authorities,
        m.num_additionals,
        qs,
        fmt_rrs(&m.answers),
        fmt_rrs(&m.authorities),
        fmt_rrs(&m.additionals)
    )
}

/// rec: namehex/newnamehex|~/ty/class/flush/ttl/created/rdata
pub fn parse_rec(s: &str) -> Option<vh::PlainRecord> {
    let f: Vec<&str> = s.split('/').collect();
    if f.len() != 8 {
        return None;
    }
    let name = unhex_str(f[0])?;
    let new_name = if f[1] == "~" { None } else { Some(unhex_str(f[1])?) };
    let ty: u16 = f[2].parse().ok()?;
    let class: u16 = f[3].parse().ok()?;
    let flush = f[4] == "1";
    let ttl: u32 = f[5].parse().ok()?;
    let created: u64 = f[6].parse().ok()?;
    let (k, v) = f[7].split_once(':')?;
    let rdata = match k {
        "A" => {
            let b = unhex(v);
            if b.len() == 4 {
                vh::PlainRData::Addr(IpAddr::from(<[u8; 4]>::try_from(&b[..]).ok()?))
            } else {
                vh::PlainRData::Addr(IpAddr::from(<[u8; 16]>::try_from(&b[..]).ok()?))
            }
        }
        "P" => vh::PlainRData::Ptr(unhex_str(v)?),
        "S" => {
            let g: Vec<&str> = v.split(',').collect();
            vh::PlainRData::Srv {
                priority: g[0].parse().ok()?,
                weight: g[1].parse().ok()?,
                port: g[2].parse().ok()?,
                host: unhex_str(g[3])?,
            }
        }
        "T" => vh::PlainRData::Txt(unhex(v)),
        "H" => {
            let (a, b) = v.split_once(',')?;
            vh::PlainRData::HInfo { cpu: unhex_str(a)?, os: unhex_str(b)? }
        }
        "N" => {
            let (a, b) = v.split_once(',')?;
            vh::PlainRData::NSec { next: unhex_str(a)?, bitmap: unhex(b) }
        }
        _ => return None,
    };
    Some(vh::PlainRecord {
        name,
        new_name,
        ty,
        class,
        flush,
        ttl,
        created,
        expires: 0,
        refresh: 0,
        if_index: 1,
        rdata,
    })
}

fn parse_list<'a>(s: &'a str, pre: &str) -> Vec<&'a str> {
    let s = s.strip_prefix(pre).unwrap_or(s);
    if s == "-" {
        Vec::new()
    } else {
        s.split(';').collect()
    }
}

/// enc flags id mc q=<namehex,ty;...> an=<rec@now;...> ns=<rec;...> ar=<rec;...>
pub fn parse_outgoing(t: &[&str]) -> Option<vh::PlainOutgoing> {
    let mut o = vh::PlainOutgoing {
        flags: t[1].parse().ok()?,
        id: t[2].parse().ok()?,
        multicast: t[3] == "1",
        questions: Vec::new(),
        answers: Vec::new(),
        authorities: Vec::new(),
        additionals: Vec::new(),
    };
    for q in parse_list(t[4], "q=") {
        let (n, ty) = q.split_once(',')?;
        o.questions.push((unhex_str(n)?, ty.parse().ok()?));
    }
    for a in parse_list(t[5], "an=") {
        let (r, now) = a.split_once('@')?;
        o.answers.push((parse_rec(r)?, now.parse().ok()?));
    }
    for a in parse_list(t[6], "ns=") {
        o.authorities.push(parse_rec(a)?);
    }
    for a in parse_list(t[7], "ar=") {
        o.additionals.push(parse_rec(a)?);
    }
    Some(o)
}

pub fn run(t: &[&str]) -> String {
    match t[0] {
        "enc" | "encdec" => {
            let Some(o) = parse_outgoing(t) else { return "SKIP".into() };
            let Some(pk) = vh::encode(&o) else { return "SKIP".into() };
            let parts: Vec<String> = pk
                .iter()
                .map(|(d, names)| {
                    let ns: Vec<String> =
                        names.iter().map(|(k, v)| format!("{}={}", hex(k.as_bytes()), v)).collect();
                    let dec = match vh::decode(d.clone(), 1) {
                        Ok(m) => fmt_msg(&m),
                        Err(_) => "ERR".to_string(),
                    };
                    format!("{}@{}@{}", hex(d), if ns.is_empty() { "-".to_string() } else { ns.join(",") }, dec)
                })
                .collect();
            format!("OK {}", parts.join(" ## "))
        }
        "dec" => {
            // the decoder runs under the allocation meter; the facade's field-by-field copy of
            // the decoded message is part of what is measured (it is linear in the message)
            let data = unhex(t[1]);
            let (r, max, sum) = crate::metered(|| vh::decode(data, 1));
            let tail = format!(" ~alloc max={} sum={}", max, sum);
            match r {
                Ok(m) => format!("OK {}{}", fmt_msg(&m), tail),
                Err(_) => format!("ERR{}", tail),
            }
        }
        _ => "BADCASE".into(),
    }
}
