//! K1: wire codec.
use crate::util::*;
use mdns_sd::verif_hooks as vh;
use std::net::IpAddr;

pub fn fmt_rdata(r: &vh::PlainRData) -> String {
    match r {
        vh::PlainRData::Addr(IpAddr::V4(a)) => format!("A:{}", hex(&a.octets())),
        vh::PlainRData::Addr(IpAddr::V6(a)) => format!("A:{}", hex(&a.octets())),
        vh::PlainRData::Ptr(a) => format!("P:{}", hex(a.as_bytes())),
        vh::PlainRData::Srv { priority, weight, port, host } => {
            format!("S:{},{},{},{}", priority, weight, port, hex(host.as_bytes()))
        }
        vh::PlainRData::Txt(t) => format!("T:{}", hex(t)),
        vh::PlainRData::HInfo { cpu, os } => format!("H:{},{}", hex(cpu.as_bytes()), hex(os.as_bytes())),
        vh::PlainRData::NSec { next, bitmap } => format!("N:{},{}", hex(next.as_bytes()), hex(bitmap)),
        vh::PlainRData::Other => "O:".to_string(),
    }
}

pub fn fmt_rr(r: &vh::PlainRecord) -> String {
    format!(
        "{} {} {} {} {} {}",
        hex(r.name.as_bytes()),
        r.ty,
        r.class,
        r.flush as u8,
        r.ttl,
        fmt_rdata(&r.rdata)
    )
}

fn fmt_rrs(v: &[vh::PlainRecord]) -> String {
    v.iter().map(fmt_rr).collect::<Vec<_>>().join(" ; ")
}

pub fn fmt_msg(m: &vh::PlainMsg) -> String {
    let qs = m
        .questions
        .iter()
        .map(|q| format!("{} {} {} {}", hex(q.name.as_bytes()), q.ty, q.class, q.flush as u8))
        .collect::<Vec<_>>()
        .join(" ; ");
    format!(
        "{} {} {} {} {} {} | {} | {} | {} | {}",
        m.id,
        m.flags,
        m.num_questions,
        m.num_answers,
        m.num_authorities,
        m.num_additionals,
        qs,
        fmt_rrs(&m.answers),
        fmt_rrs(&m.authorities),
        fmt_rrs(&m.additionals)
    )
}

pub fn run(t: &[&str]) -> String {
    match t[0] {
        "dec" => match vh::decode(unhex(t[1]), 1) {
            Ok(m) => format!("OK {}", fmt_msg(&m)),
            Err(_) => "ERR".into(),
        },
        _ => "BADCASE".into(),
    }
}
