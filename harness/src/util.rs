//! Shared helpers: hex, canonical formats.
use mdns_sd::verif_hooks::Prop;

pub fn unhex(s: &str) -> Vec<u8> {
    if s == "-" {
        return Vec::new();
    }
    let b = s.as_bytes();
    let hv = |c: u8| -> u8 {
        match c {
            b'0'..=b'9' => c - 48,
            b'a'..=b'f' => c - 87,
            b'A'..=b'F' => c - 55,
            _ => panic!("bad hex"),
        }
    };
    (0..b.len() / 2).map(|i| hv(b[2 * i]) * 16 + hv(b[2 * i + 1])).collect()
}

pub fn hex(b: &[u8]) -> String {
    if b.is_empty() {
        return "-".to_string();
    }
    let mut s = String::with_capacity(b.len() * 2);
    for x in b {
        s.push_str(&format!("{:02x}", x));
    }
    s
}

/// Hex token -> String; None when the bytes are not UTF-8 (case not expressible in Rust).
pub fn unhex_str(s: &str) -> Option<String> {
    String::from_utf8(unhex(s)).ok()
}

pub fn parse_props(s: &str) -> Option<Vec<Prop>> {
    if s == "-" {
        return Some(Vec::new());
    }
    let mut v = Vec::new();
    for p in s.split(',') {
        let (k, val) = p.split_once(':')?;
        let key = unhex_str(k)?;
        let val = if val == "~" { None } else { Some(unhex(val)) };
        v.push((key, val));
    }
    Some(v)
}

pub fn fmt_prop(p: &Prop) -> String {
    format!(
        "{}:{}",
        hex(p.0.as_bytes()),
        match &p.1 {
            None => "~".to_string(),
            Some(v) => hex(v),
        }
    )
}

pub fn fmt_props(v: &[Prop]) -> String {
    if v.is_empty() {
        return "-".to_string();
    }
    v.iter().map(fmt_prop).collect::<Vec<_>>().join(",")
}
