//! Implementation-side driver: reads one case per line on stdin, runs the real mdns-sd code
//! (through the `verif-hooks` facade), prints one canonical result line per case.
//! A panic is an outcome (`PANIC`), a hang is an outcome (`HANG`, after which the process
//! exits with status 3 and the runner restarts it on the remaining cases).
mod util;
mod k1;
mod k2;
mod sim;
mod sched;
mod life;
mod registry;
mod responder;
mod browser;
mod hostres;
mod safety;

use std::io::{BufRead, Write};
use std::sync::mpsc;
use std::time::Duration;

fn run_case(line: &str) -> String {
    let toks: Vec<&str> = line.split(' ').collect();
    let r = std::panic::catch_unwind(|| match toks[0] {
        t if t.starts_with("txt_") => k2::run_txt(&toks),
        "dec" | "enc" | "encdec" => k1::run(&toks),
        _ => {
            // group-owned case kinds: the first module that knows the kind answers
            let groups: [fn(&[&str]) -> Option<String>; 7] =
                [sched::run, life::run, registry::run, responder::run, browser::run, hostres::run, safety::run];
            groups.iter().find_map(|f| f(&toks)).unwrap_or_else(|| "BADCASE".to_string())
        }
    });
    match r {
        Ok(s) => s,
        Err(_) => "PANIC".to_string(),
    }
}

fn main() {
    std::panic::set_hook(Box::new(|_| {}));
    if std::env::args().nth(1).as_deref() == Some("sim") {
        sim::main_sim();
        return;
    }
    let watchdog_ms: u64 = std::env::var("VERIF_WATCHDOG_MS")
        .ok()
        .and_then(|s| s.parse().ok())
        .unwrap_or(3000);
    let stdin = std::io::stdin();
    let stdout = std::io::stdout();
    let mut out = std::io::BufWriter::new(stdout.lock());
    for line in stdin.lock().lines() {
        let line = line.unwrap();
        if line.is_empty() {
            continue;
        }
        let (tx, rx) = mpsc::channel();
        let l2 = line.clone();
        let h = std::thread::Builder::new()
            .stack_size(64 << 20)
            .spawn(move || {
                let _ = tx.send(run_case(&l2));
            })
            .unwrap();
        match rx.recv_timeout(Duration::from_millis(watchdog_ms)) {
            Ok(s) => {
                let _ = h.join();
                writeln!(out, "{}", s).unwrap();
            }
            Err(_) => {
                writeln!(out, "HANG").unwrap();
                out.flush().unwrap();
                std::process::exit(3);
            }
        }
    }
    out.flush().unwrap();
}
