//! Implementation-side driver: reads one case per line on stdin, runs the real mdns-sd code
//! (through the `verif-hooks` facade), prints one canonical result line per case.
//! A panic is an outcome (`PANIC`), a hang is an outcome (`HANG`, after which the process
//! exits with status 3 and the runner restarts it on the remaining cases).
mod util;
mod k1;
mod k2;
mod sim;
mod sched;
mod life;
mod registry;
mod responder;
mod browser;
mod hostres;
mod safety;

use std::alloc::{GlobalAlloc, Layout, System};
use std::cell::Cell;
use std::io::{BufRead, Write};
use std::sync::mpsc;
use std::time::Duration;

/// Allocation meter (per thread, only while switched on): the largest single request and the
/// sum of all requests. Used by the `dec` cases: "memory proportional to the datagram size".
pub struct Meter;
thread_local! {
    pub static METER_ON: Cell<bool> = const { Cell::new(false) };
    pub static METER_MAX: Cell<usize> = const { Cell::new(0) };
    pub static METER_SUM: Cell<usize> = const { Cell::new(0) };
}
fn meter_note(sz: usize) {
    let _ = METER_ON.try_with(|on| {
        if on.get() {
            let _ = METER_MAX.try_with(|m| {
                if sz > m.get() {
                    m.set(sz)
                }
            });
            let _ = METER_SUM.try_with(|m| m.set(m.get().saturating_add(sz)));
        }
    });
}
unsafe impl GlobalAlloc for Meter {
    unsafe fn alloc(&self, l: Layout) -> *mut u8 {
        meter_note(l.size());
        System.alloc(l)
    }
    unsafe fn dealloc(&self, p: *mut u8, l: Layout) {
        System.dealloc(p, l)
    }
    unsafe fn alloc_zeroed(&self, l: Layout) -> *mut u8 {
        meter_note(l.size());
        System.alloc_zeroed(l)
    }
    unsafe fn realloc(&self, p: *mut u8, l: Layout, new_size: usize) -> *mut u8 {
        meter_note(new_size);
        System.realloc(p, l, new_size)
    }
}
#[global_allocator]
static METER: Meter = Meter;

/// Runs `f` with the meter on; returns (result, largest request, sum of requests).
pub fn metered<T>(f: impl FnOnce() -> T) -> (T, usize, usize) {
    METER_MAX.with(|m| m.set(0));
    METER_SUM.with(|m| m.set(0));
    METER_ON.with(|m| m.set(true));
    let r = f();
    METER_ON.with(|m| m.set(false));
    (r, METER_MAX.with(|m| m.get()), METER_SUM.with(|m| m.get()))
}

fn run_case(line: &str) -> String {
    let toks: Vec<&str> = line.split(' ').collect();
    let r = std::panic::catch_unwind(|| match toks[0] {
        t if t.starts_with("txt_") => k2::run_txt(&toks),
        "dec" | "enc" | "encdec" => k1::run(&toks),
        _ => {
            // group-owned case kinds: the first module that knows the kind answers
            let groups: [fn(&[&str]) -> Option<String>; 7] =
                [sched::run, life::run, registry::run, responder::run, browser::run, hostres::run, safety::run];
            groups.iter().find_map(|f| f(&toks)).unwrap_or_else(|| "BADCASE".to_string())
        }
    });
    match r {
        Ok(s) => s,
        Err(_) => "PANIC".to_string(),
    }
}

fn main() {
    std::panic::set_hook(Box::new(|_| {}));
    if std::env::args().nth(1).as_deref() == Some("sim") {
        sim::main_sim();
        return;
    }
    let watchdog_ms: u64 = std::env::var("VERIF_WATCHDOG_MS")
        .ok()
        .and_then(|s| s.parse().ok())
        .unwrap_or(3000);
    let stdin = std::io::stdin();
    let stdout = std::io::stdout();
    let mut out = std::io::BufWriter::new(stdout.lock());
    for line in stdin.lock().lines() {
        let line = line.unwrap();
        if line.is_empty() {
            continue;
        }
        let (tx, rx) = mpsc::channel();
        let l2 = line.clone();
        let h = std::thread::Builder::new()
            .stack_size(64 << 20)
            .spawn(move || {
                let _ = tx.send(run_case(&l2));
            })
            .unwrap();
        match rx.recv_timeout(Duration::from_millis(watchdog_ms)) {
            Ok(s) => {
                let _ = h.join();
                writeln!(out, "{}", s).unwrap();
            }
            Err(_) => {
                writeln!(out, "HANG").unwrap();
                out.flush().unwrap();
                std::process::exit(3);
            }
        }
    }
    out.flush().unwrap();
}
