//! Case kinds of group `registry` (facade-level, K1-K5). `run` returns None for case kinds it does
//! not know. Owned by the `registry` group; other files need not change when kinds are added here.
//!
//!   nc  <namehex>            name_change(name)                      -> OK <hex>
//!   hc  <namehex>            hostname_change(name)                  -> OK <hex>
//!   cmp <rec> <rec>          DnsRecordExt::compare / rrdata_match   -> OK <-1|0|1> <0|1>
//!                            (rec in k1::parse_rec syntax)
//!   sim <history json>       one simulated-daemon history (same as `harness sim`), so that a
//!                            property can mix component cases and histories in one run
#[allow(unused_imports)]
use crate::util::*;
#[allow(unused_imports)]
use mdns_sd::verif_hooks as vh;

pub fn run(t: &[&str]) -> Option<String> {
    match t[0] {
        "nc" | "hc" => {
            if t.len() != 2 {
                return Some("BADCASE".into());
            }
            let Some(s) = unhex_str(t[1]) else { return Some("SKIP".into()) };
            let r = if t[0] == "nc" { vh::name_change(&s) } else { vh::hostname_change(&s) };
            Some(format!("OK {}", hex(r.as_bytes())))
        }
        "cmp" => {
            if t.len() != 3 {
                return Some("BADCASE".into());
            }
            let (Some(a), Some(b)) = (crate::k1::parse_rec(t[1]), crate::k1::parse_rec(t[2])) else {
                return Some("SKIP".into());
            };
            match vh::rel(&a, &b) {
                Some((_m, rm, c, _s)) => Some(format!("OK {} {}", c, rm as u8)),
                None => Some("SKIP".into()),
            }
        }
        "sim" => {
            let line = t[1..].join(" ");
            Some(crate::sim::run_history(&line))
        }
        _ => None,
    }
}
