//! Case kinds of group `registry` (facade-level, K1-K5). `run` returns None for case kinds it does
//! not know. Owned by the `registry` group; other files need not change when kinds are added here.
//!
//!   nc  <namehex>            name_change(name)                      -> OK <hex>
//!   hc  <namehex>            hostname_change(name)                  -> OK <hex>
//!   cmp <a> <b>              DnsRecordExt::compare / rrdata_match   -> OK <cmp a b> <rrdata_match a b> <cmp b a>
//!   cmp3 <a> <b> <c>         compare on three records               -> OK <cmp a b> <cmp b c> <cmp a c>
//!                            (records in k1::parse_rec syntax; cmp values -1|0|1)
//!   sim <history json>       one simulated-daemon history (same as `harness sim`), so that a
//!                            property can mix component cases and histories in one run
#[allow(unused_imports)]
use crate::util::*;
#[allow(unused_imports)]
use mdns_sd::verif_hooks as vh;

pub fn run(t: &[&str]) -> Option<String> {
    match t[0] {
        "nc" | "hc" => {
            if t.len() != 2 {
                return Some("BADCASE".into());
            }
            let Some(s) = unhex_str(t[1]) else { return Some("SKIP".into()) };
            let r = if t[0] == "nc" { vh::name_change(&s) } else { vh::hostname_change(&s) };
            Some(format!("OK {}", hex(r.as_bytes())))
        }
        "cmp" => {
            if t.len() != 3 {
                return Some("BADCASE".into());
            }
            let (Some(a), Some(b)) = (crate::k1::parse_rec(t[1]), crate::k1::parse_rec(t[2])) else {
                return Some("SKIP".into());
            };
            match (vh::rel(&a, &b), vh::rel(&b, &a)) {
                (Some((_m, rm, c, _s)), Some((_, _, c2, _))) => Some(format!("OK {} {} {}", c, rm as u8, c2)),
                _ => Some("SKIP".into()),
            }
        }
        "cmp3" => {
            if t.len() != 4 {
                return Some("BADCASE".into());
            }
            let (Some(a), Some(b), Some(c)) =
                (crate::k1::parse_rec(t[1]), crate::k1::parse_rec(t[2]), crate::k1::parse_rec(t[3]))
            else {
                return Some("SKIP".into());
            };
            match (vh::rel(&a, &b), vh::rel(&b, &c), vh::rel(&a, &c)) {
                (Some(x), Some(y), Some(z)) => Some(format!("OK {} {} {}", x.2, y.2, z.2)),
                _ => Some("SKIP".into()),
            }
        }
        "sim" => {
            let line = t[1..].join(" ");
            Some(crate::sim::run_history(&line))
        }
        _ => None,
    }
}
