//! Case kinds of group `life` (facade-level, K1-K5). `run` returns None for case kinds it does
//! not know. Owned by the `life` group; other files need not change when kinds are added here.
//!
//!   exp <created> <ttl> <percent>            -> OK <get_expiration_time>
//!   life <rec> <op,arg,arg2;...|->           -> OK <r1;r2;...>   (spaces inside one result -> ',')
//!   rel <recA>[@ifindex] <recB>[@ifindex]    -> OK <matches> <rrdata_match> <suppressed_by_answer>
//!   lsim <history json>                      -> the raw JSON result of one simulated-daemon history
//! Record syntax: `k1::parse_rec` (namehex/newname|~/ty/class/flush/ttl/created/rdata).
use crate::k1;
#[allow(unused_imports)]
use crate::util::*;
use mdns_sd::verif_hooks as vh;

fn parse_rec_if(s: &str) -> Option<vh::PlainRecord> {
    match s.rsplit_once('@') {
        Some((r, i)) => {
            let mut p = k1::parse_rec(r)?;
            p.if_index = i.parse().ok()?;
            Some(p)
        }
        None => k1::parse_rec(s),
    }
}

pub fn run(t: &[&str]) -> Option<String> {
    match t[0] {
        "exp" => {
            if t.len() != 4 {
                return Some("BADCASE".into());
            }
            let (Ok(c), Ok(ttl), Ok(p)) = (t[1].parse::<u64>(), t[2].parse::<u32>(), t[3].parse::<u32>()) else {
                return Some("SKIP".into());
            };
            Some(format!("OK {}", vh::expiration_time(c, ttl, p)))
        }
        "life" => {
            if t.len() != 3 {
                return Some("BADCASE".into());
            }
            let Some(rec) = parse_rec_if(t[1]) else { return Some("SKIP".into()) };
            let mut ops: Vec<(String, u64, u64)> = Vec::new();
            if t[2] != "-" {
                for o in t[2].split(';') {
                    let f: Vec<&str> = o.split(',').collect();
                    if f.len() != 3 {
                        return Some("SKIP".into());
                    }
                    let (Ok(a), Ok(b)) = (f[1].parse::<u64>(), f[2].parse::<u64>()) else {
                        return Some("SKIP".into());
                    };
                    ops.push((f[0].to_string(), a, b));
                }
            }
            match vh::life_ops(&rec, &ops) {
                Some(v) => {
                    let parts: Vec<String> = v.iter().map(|s| s.replace(' ', ",")).collect();
                    Some(format!("OK {}", if parts.is_empty() { "-".to_string() } else { parts.join(";") }))
                }
                None => Some("SKIP".into()),
            }
        }
        "rel" => {
            if t.len() != 3 {
                return Some("BADCASE".into());
            }
            let (Some(a), Some(b)) = (parse_rec_if(t[1]), parse_rec_if(t[2])) else {
                return Some("SKIP".into());
            };
            match vh::rel(&a, &b) {
                Some((m, r, _c, s)) => Some(format!("OK {} {} {}", m as u8, r as u8, s as u8)),
                None => Some("SKIP".into()),
            }
        }
        "lsim" => Some(crate::sim::run_history(&t[1..].join(" "))),
        _ => None,
    }
}
