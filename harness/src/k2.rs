//! K2: TXT codec, names, validators.
use crate::util::*;
use mdns_sd::verif_hooks as vh;

pub fn run_txt(t: &[&str]) -> String {
    match t[0] {
        "txt_esc" => {
            // escape_instance_name on the instance label, then the encoder's label split of
            // "<escaped>.<type>": prints the escaped string and the labels
            let Some(l) = unhex_str(t[1]) else { return "SKIP".into() };
            let Some(ty) = unhex_str(t[2]) else { return "SKIP".into() };
            let e = vh::escape_instance_name(&l);
            let full = format!("{e}.{ty}");
            let full = full.strip_suffix('.').unwrap_or(&full).to_string();
            let labels: Vec<String> = vh::parse_escaped_name(&full).iter().map(|x| hex(x.as_bytes())).collect();
            format!("OK {} {}", hex(e.as_bytes()), if labels.is_empty() { "-".to_string() } else { labels.join(",") })
        }
        "txt_new" => {
            let Some(ps) = parse_props(t[1]) else { return "SKIP".into() };
            match vh::service_info_new_txt(&ps) {
                Ok((stored, b)) => format!("OK {} {}", fmt_props(&stored), hex(&b)),
                Err(_) => "ERR".into(),
            }
        }
        "txt_trip" => {
            let Some(ps) = parse_props(t[1]) else { return "SKIP".into() };
            match vh::service_info_new_txt(&ps) {
                Ok((_, b)) => format!("OK {} {}", fmt_props(&vh::txt_decode_unique(&b)), hex(&b)),
                Err(_) => "ERR".into(),
            }
        }
        "txt_enc" => {
            let Some(ps) = parse_props(t[1]) else { return "SKIP".into() };
            format!("OK {}", hex(&vh::txt_encode(&ps)))
        }
        "txt_dec" => format!("OK {}", fmt_props(&vh::txt_decode(&unhex(t[1])))),
        "txt_decu" => format!("OK {}", fmt_props(&vh::txt_decode_unique(&unhex(t[1])))),
        "txt_get" => {
            let Some(ps) = parse_props(t[1]) else { return "SKIP".into() };
            let Some(k) = unhex_str(t[2]) else { return "SKIP".into() };
            match vh::txt_get(&ps, &k) {
                None => "OK NONE".into(),
                Some(p) => format!("OK {}", fmt_prop(&p)),
            }
        }
        _ => "BADCASE".into(),
    }
}
